"""setup_cmd: self-test of the trusted models (vterm, vtty, explorers).  Exit 0 = ok."""
from __future__ import annotations

import base64
import sys
import zlib

from . import explore, vterm, world


def T(cols, rows, s, at=(0, 0), identity="other", **kw):
    return vterm.run(s, cols, rows, identity, at=at, **kw)


def vterm_tests():
    fails = []

    def eq(name, got, want):
        if got != want:
            fails.append(f"{name}: got {got!r} want {want!r}")

    t = T(5, 3, "ab")
    eq("print-cursor", t.cursor(), (0, 2))
    eq("print-touched", sorted(t.touched()), [(0, 0), (0, 1)])
    t = T(3, 3, "abc")
    eq("deferred-wrap-col", (t.cursor(), t.wrap_pending, t.wraps), ((0, 2), True, 0))
    t = T(3, 3, "abcd")
    eq("wrap-event", (t.cursor(), t.wraps), ((1, 1), 1))
    t = T(3, 3, "abc\nd")
    eq("nl-clears-wrap", (t.cursor(), t.wraps), ((1, 1), 0))
    t = T(3, 2, "a\nb\nc")
    eq("scroll", (t.scrolls, t.cursor(), t.grid[0][0].glyph, t.grid[1][0].glyph), (1, (1, 1), "b", "c"))
    t = T(5, 3, "ab\ncd", at=(0, 2))
    eq("line-start-anchor", (t.grid[1][2].glyph, t.cursor()), ("c", (1, 4)))
    t = T(5, 3, "ab\rc", at=(0, 2))
    eq("cr-anchor", t.grid[0][2].glyph, "c")
    t = T(5, 5, "\x1b[0A", at=(2, 2))
    eq("CUU-0-means-1", t.cursor(), (1, 2))
    t = T(5, 5, "\x1b[A\x1b[2C", at=(2, 1))
    eq("CUU-default,CUF", t.cursor(), (1, 3))
    t = T(5, 5, "\x1b[9B\x1b[9C", at=(2, 1))
    eq("clamp", t.cursor(), (4, 4))
    t = T(5, 5, "\x1b[9B", at=(4, 1))
    eq("CUD-never-scrolls", (t.scrolls, t.cursor()), (0, (4, 1)))
    t = T(5, 2, "\x1b[48;2;1;2;3m\x1b[2X", at=(0, 1))
    eq("ECH", ([c.tag for c in t.grid[0]], t.grid[0][1].bg, t.cursor()), (["P", "E", "E", "P", "P"], (1, 2, 3), (0, 1)))
    t = T(5, 2, "\x1b[38;2;9;8;7m\x1b[48;2;1;2;3m▀\x1b[m▄ ")
    eq("halves-upper", t.grid[0][0].halves(), ((9, 8, 7), (1, 2, 3)))
    eq("halves-lower-default", t.grid[0][1].halves(), (None, "deffg"))
    eq("sgr-reset", t.sgr_default(), True)
    t = T(5, 2, "\x1b[38;2;9;8;7mA")
    eq("sgr-not-default", t.sgr_default(), False)
    t = T(5, 2, "\x1b[?25l")
    eq("hide", t.visible, False)
    t = T(5, 2, "\x1b[?25l\x1b[?25h")
    eq("show", t.visible, True)
    t = T(5, 2, "\x1b[?2026hA\x1b[?2026l")
    eq("sync-events", [e for e in t.events if e[0] == "sync"], [("sync", True), ("sync", False)])
    t = T(5, 2, "\x1b[38;2;1;2")
    eq("incomplete-csi", t.parser_state, "csi")
    t = T(5, 2, "\x1b\\")
    eq("lone-ST", (t.parser_state, t.errors), ("ground", []))
    t = T(5, 2, "\x1b]1337;File=inline=1:AAAA\x1b[mX", strict=True)
    eq("esc-aborts-osc", (t.parser_state, bool(t.errors), t.grid[0][0].glyph), ("ground", True, "X"))
    # kitty
    raw = bytes(range(12))
    pay = base64.b64encode(raw).decode()
    t = T(6, 4, f"\x1b_Ga=T,f=24,s=2,v=2,c=2,r=2,C=1;{pay}\x1b\\", at=(1, 1), identity="kitty")
    eq("kitty-place", ([p.key()[:6] for p in t.placements], t.cursor(), t.errors),
       ([("kitty", 1, 1, 2, 2, 0)], (1, 1), []))
    eq("kitty-tags", sorted(t.touched()), [(1, 1), (1, 2), (2, 1), (2, 2)])
    t = T(6, 4, f"\x1b_Ga=T,f=24,s=2,v=3,c=2,r=2,C=1;{pay}\x1b\\", identity="kitty")
    eq("kitty-size-mismatch", bool(t.errors), True)
    z = base64.b64encode(zlib.compress(raw)).decode()
    t = T(6, 4, f"\x1b_Ga=T,f=24,s=2,v=2,c=1,r=1,C=1,o=z;{z}\x1b\\", identity="kitty")
    eq("kitty-zlib", (t.errors, t.kitty_images[0]["raw"]), ([], raw))
    t = T(6, 4, f"\x1b_Ga=T,f=24,s=2,v=2,c=1,r=1,C=1,m=1;{pay[:8]}\x1b\\\x1b_Gm=0;{pay[8:]}\x1b\\", identity="kitty")
    eq("kitty-chunked", (t.errors, len(t.placements), t.pending_kitty), ([], 1, None))
    t = T(6, 4, f"\x1b_Ga=T,f=24,s=2,v=2,c=1,r=1,C=1,m=1;{pay[:8]}\x1b\\", identity="kitty")
    eq("kitty-pending", t.pending_kitty is not None, True)
    t = T(6, 4, f"\x1b_Ga=T,f=24,s=2,v=2,c=1,r=1,C=1,m=1;{pay[:8]}\x1b\\\x1b_Gq=1,m=0;\x1b\\", identity="kitty")
    eq("kitty-end-chunked", (t.pending_kitty, len(t.placements)), (None, 0))
    t = T(6, 4, f"\x1b_Ga=T,f=24,s=2,v=2,c=1,r=1,C=1,z=5;{pay}\x1b\\\x1b_Ga=d,d=Z,z=5;\x1b\\", identity="kitty")
    eq("kitty-delete-z", len(t.placements), 0)
    t = T(6, 4, f"\x1b_Ga=T,f=24,s=2,v=2,c=1,r=1,C=1,z=5;{pay}\x1b\\\x1b_Ga=d,d=Z,z=4;\x1b\\", identity="kitty")
    eq("kitty-delete-other-z", len(t.placements), 1)
    t = T(6, 4, f"\x1b_Ga=T,f=24,s=2,v=2,c=1,r=1,C=1;{pay}\x1b\\" * 2, identity="kitty")
    eq("kitty-coexist", len(t.placements), 2)
    t = T(6, 4, f"\x1b_Ga=T,f=24,s=2,v=2,c=1,r=1,C=1;{pay}\x1b\\" * 2, identity="konsole")
    eq("konsole-replace", len(t.placements), 1)
    t = T(6, 4, f"\x1b_Ga=T,f=24,s=2,v=2,c=1,r=1,C=1;{pay}\x1b\\\x1b_Ga=d,d=A;\x1b\\", identity="kitty")
    eq("kitty-delete-all", len(t.placements), 0)
    # iterm2
    import io

    from PIL import Image

    b = io.BytesIO()
    Image.new("RGB", (2, 2), (1, 2, 3)).save(b, "png")
    png = b.getvalue()
    p64 = base64.b64encode(png).decode()
    s = f"\x1b]1337;File=size={len(png)};width=2;height=2;preserveAspectRatio=0;inline=1:{p64}\x1b\\"
    t = T(6, 4, s, at=(1, 1), identity="iterm2")
    eq("iterm2-place", (t.errors, [p.key()[:5] for p in t.placements], t.cursor()), ([], [("iterm2", 1, 1, 2, 2)], (2, 3)))
    t = T(6, 4, s.replace("inline=1", "inline=1;doNotMoveCursor=1"), at=(1, 1), identity="konsole")
    eq("konsole-stay", (t.errors, t.cursor()), ([], (1, 1)))
    t = T(6, 4, s.replace(f"size={len(png)}", "size=7"), identity="iterm2")
    eq("iterm2-size-mismatch", bool(t.errors), True)
    t = T(6, 3, s, at=(2, 0), identity="iterm2")
    eq("iterm2-scrolls-when-not-fitting", (t.scrolls, t.cursor()), (1, (2, 2)))
    t = T(3, 4, s, at=(0, 1), identity="iterm2")
    eq("iterm2-margin", (t.cursor(), t.wrap_pending), ((1, 2), True))
    return fails


def vtty_tests():
    fails = []
    L = world.load()
    u = L.utils
    for ident, name in (("kitty", ("kitty", "0.30.1")), ("other", (None, None))):
        tty = world.setup(ident, 10, 5, cell=(3, 7))
        before = [x if not isinstance(x, list) else list(x) for x in tty.attrs]
        got = u.get_terminal_name_version()
        if got != name:
            fails.append(f"vtty name {ident}: {got}")
        if u.get_cell_size() != (3, 7):
            fails.append(f"vtty cell size: {u.get_cell_size()}")
        if tty.attrs != before:
            fails.append("vtty attrs not restored in the no-fault path")
        if tty.inq:
            fails.append(f"vtty unread input {bytes(tty.inq)!r}")
    world.uninstall()
    # a read that needs more bytes than are queued (VMIN=3, 2 queued) waits for the next delivery
    tty = world.VTty(attrs=world.default_attrs(False, False, 3, 0))
    tty.inq.extend(b"ab")
    tty.pending.append(("key", b"cd"))
    tty.max_calls = 50
    got = tty.read(world.TTY_FD, 3)
    if got != b"abc" or bytes(tty.inq) != b"d":
        fails.append(f"vtty read(VMIN=3) with 2 bytes queued: {got!r} left {bytes(tty.inq)!r}")
    # a wait that expires always moves the clock, even below the float resolution of the clock
    tty = world.VTty()
    t0 = tty.clock
    tty.select([], [], [], 1e-17)
    if not tty.clock > t0:
        fails.append("vtty: an expired select(1e-17) did not advance the clock")
    # eager terminal: the reply may already be queued when tcdrain() returns (choice j > 0), never by default
    for prefix, want in (((), b""), ((1,), b"\x1b[?62;4c")):
        tty = world.VTty(chooser=explore.Chooser(prefix), eager=True)
        tty.write(world.TTY_FD, b"\x1b[c")
        tty.tcdrain(world.TTY_FD)
        if bytes(tty.inq) != want:
            fails.append(f"vtty eager {prefix}: queued {bytes(tty.inq)!r} want {want!r}")
    fails += vstdout_tests()
    return fails


def vstdout_tests():
    """Delivery disciplines of the virtual stdout (hand-computed)."""
    fails = []

    def run(buffering, ops, plan=None):
        so = world.VStdout(term=None, buffering=buffering, plan=plan)
        exc = None
        try:
            for op in ops:
                so.flush() if op is None else so.write(op)
        except KeyboardInterrupt:
            exc = True
        return so.getvalue(), so.pending(), exc

    P = world.FaultPlan
    table = [
        ("none", ["ab", "cd"], None, ("abcd", "", None)),
        ("full", ["ab", "cd"], None, ("", "abcd", None)),
        ("full", ["ab", "cd", None, "e"], None, ("abcd", "e", None)),
        ("line", ["ab", "c\nd", "e"], None, ("abc\nd", "e", None)),
        ("full", ["ab", "cd", None], P(3, "partial", KeyboardInterrupt, 3, False), ("abc", "", True)),
        ("full", ["ab", "cd", None], P(3, "partial", KeyboardInterrupt, 3, True), ("abc", "d", True)),
        ("full", ["ab", "cd", None], P(3, "instead", KeyboardInterrupt), ("", "abcd", True)),
        ("full", ["ab", "cd", None], P(3, "after", KeyboardInterrupt), ("abcd", "", True)),
        ("full", ["ab", "cd", None], P(2, "instead", KeyboardInterrupt), ("", "ab", True)),
        ("full", ["ab", "cd", None], P(2, "after", KeyboardInterrupt), ("", "abcd", True)),
        ("line", ["ab", "c\nd"], P(2, "partial", KeyboardInterrupt, 3, False), ("abc", "", True)),
        ("line", ["ab", "c\nd"], P(2, "partial", KeyboardInterrupt, 3, True), ("abc", "\nd", True)),
        ("none", ["ab", "cd", "ef", None], P(2, "partial", KeyboardInterrupt, 1, True), ("abc", "d", True)),
    ]
    for buffering, ops, plan, want in table:
        got = run(buffering, ops, plan)
        if got != want:
            fails.append(f"vstdout {buffering} {ops} {vars(plan) if plan else None}: {got} != {want}")
    # order is kept: the rest of an interrupted write goes out before anything written later
    so = world.VStdout(term=None, plan=P(1, "partial", KeyboardInterrupt, 1, True))
    try:
        so.write("ab")
    except KeyboardInterrupt:
        pass
    so.write("cd")
    if so.getvalue() != "abcd":
        fails.append(f"vstdout none/buffered order: {so.getvalue()!r}")
    return fails


def explorer_tests():
    fails = []
    # a tiny tree: 3 binary points -> 8 leaves; bound 1 -> 4 executions
    seen = []

    def run(ch):
        x = tuple(ch.choose(2) for _ in range(3))
        seen.append(x)
        return x

    ct = explore.ChoiceTree(run, bound=1)
    ct.explore()
    if sorted(seen) != sorted({(0, 0, 0), (1, 0, 0), (0, 1, 0), (0, 0, 1)}):
        fails.append(f"choice tree bound 1: {sorted(seen)}")
    seen.clear()
    ct = explore.ChoiceTree(run, bound=3)
    ct.explore()
    if len(seen) != 8 or len(set(seen)) != 8:
        fails.append(f"choice tree bound 3: {len(seen)} execs, {len(set(seen))} distinct")
    return fails


def sched_tests():
    """Controlled scheduler (vlib/sched.py): lost update found with 1 preemption, none with a harness
    lock, lock-order inversion reported as deadlock, replay reproducible, lock classes distinct."""
    from . import sched

    return sched.selftest()


def conformance_tests():
    """Real-pty conformance of VStdout for the no-fault path (vlib/conformance.py)."""
    from . import conformance

    fails, notes = conformance.run_all()
    for n in notes:
        print("selftest conformance:", n, file=sys.stderr)
    return fails


def main():
    fails = []
    for name, f in (("vterm", vterm_tests), ("vtty", vtty_tests), ("explore", explorer_tests),
                    ("sched", sched_tests), ("conformance", conformance_tests)):
        try:
            r = f()
        except Exception as e:  # noqa
            import traceback

            traceback.print_exc()
            r = [f"{name}: exception {type(e).__name__}: {e}"]
        print(f"selftest {name}: {'ok' if not r else 'FAILED'}", file=sys.stderr)
        fails += r
    for f in fails:
        print("SELFTEST-FAIL", f, file=sys.stderr)
    return 2 if fails else 0
