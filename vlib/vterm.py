"""vterm - strict VT/xterm-style terminal model (DESIGN 2.2, Appendix A).

Deliberately independent of term_image._ctlseqs: own sequence tables, written from the xterm
control-sequence document and the kitty / iTerm2 protocol descriptions.
"""
from __future__ import annotations

import base64
import binascii
import hashlib
import io
import zlib

UPPER = "▀"
LOWER = "▄"


class Cell:
    __slots__ = ("glyph", "fg", "bg", "tag", "orig", "attrs")

    def __init__(self, glyph=" ", fg=None, bg=None, tag="P", orig=None, attrs=()):
        self.glyph, self.fg, self.bg, self.tag, self.orig, self.attrs = glyph, fg, bg, tag, orig, attrs

    def key(self):
        return (self.glyph, self.fg, self.bg, self.attrs)

    def halves(self):
        """(upper colour, lower colour) of a block-rendered cell; None = terminal default bg."""
        if self.glyph == UPPER:
            return (self.fg if self.fg is not None else "deffg", self.bg)
        if self.glyph == LOWER:
            return (self.bg, self.fg if self.fg is not None else "deffg")
        if self.glyph == " ":
            return (self.bg, self.bg)
        return ("glyph:" + self.glyph, "glyph:" + self.glyph)

    def copy(self):
        return Cell(self.glyph, self.fg, self.bg, self.tag, self.orig, self.attrs)

    def __repr__(self):
        return f"Cell({self.glyph!r},{self.fg},{self.bg},{self.tag},{self.orig})"


class Placement:
    __slots__ = ("proto", "row", "col", "cols", "rows", "z", "digest", "mode", "size", "data", "seq")

    def __init__(self, proto, row, col, cols, rows, z, mode, size, data, seq):
        self.proto, self.row, self.col, self.cols, self.rows, self.z = proto, row, col, cols, rows, z
        self.mode, self.size, self.data, self.seq = mode, size, data, seq
        self.digest = hashlib.sha1(repr((mode, size)).encode() + (data or b"")).hexdigest()[:16]

    def key(self):
        return (self.proto, self.row, self.col, self.cols, self.rows, self.z, self.digest)

    def cells(self):
        return {(r, c) for r in range(self.row, self.row + self.rows)
                for c in range(self.col, self.col + self.cols)}

    def __repr__(self):
        return f"Placement{self.key()}"


GROUND, ESC, CSI, OSC, APC, DCS, STR_ESC, ESC_INT = range(8)
_STATE_NAMES = ["ground", "esc", "csi", "osc", "apc", "dcs", "str_esc", "esc_int"]


class VTerm:
    def __init__(self, cols, rows, identity="other", onlcr=True, line_start=0, strict=False,
                 decode_images=True):
        self.cols, self.rows = cols, rows
        self.identity = identity          # kitty | konsole | iterm2 | wezterm | other
        self.onlcr = onlcr
        self.line_start = line_start
        self.strict = strict
        self.decode_images = decode_images
        self.grid = [[Cell(orig=(r, c)) for c in range(cols)] for r in range(rows)]
        self.r = self.c = 0
        self.wrap_pending = False
        self.fg = self.bg = None
        self.attrs = ()                   # other SGR params, opaque
        self.visible = True
        self.insert_mode = False
        self.sync_depth = 0
        self.placements = []
        self.state = GROUND
        self.buf = []
        self.str_kind = None
        self.pending_kitty = None         # dict(keys=..., payload=[...]) while m=1 chunks arrive
        self.wraps = 0
        self.scrolls = 0
        self.errors = []
        self.events = []                  # ordered log of notable events
        self.kitty_chunks = []            # per APC G: (keys dict, payload str)
        self.kitty_images = []            # completed transmissions: dict
        self.iterm_images = []            # dict(keys, data_len, mode, size)
        self.seq = 0
        self.nfeeds = 0
        self.modes = {}

    # ------------------------------------------------------------------ helpers
    @property
    def parser_state(self):
        return _STATE_NAMES[self.state]

    def in_ground(self):
        return self.state == GROUND

    def cursor(self):
        return (self.r, self.c)

    def sgr_default(self):
        return self.fg is None and self.bg is None and self.attrs == ()

    def touched(self):
        return {(r, c) for r in range(self.rows) for c in range(self.cols)
                if self.grid[r][c].tag in ("T", "E", "G")}

    def clear_tags(self):
        for row in self.grid:
            for cell in row:
                if cell.tag != "P":
                    cell.tag = "O"   # old content, not touched since

    def snapshot_cells(self):
        return tuple(tuple(cell.key() for cell in row) for row in self.grid)

    def snapshot_placements(self):
        return tuple(sorted(p.key() for p in self.placements))

    def error(self, msg):
        self.errors.append(msg)

    # ------------------------------------------------------------------ screen ops
    def _scroll_up(self):
        self.scrolls += 1
        self.grid.pop(0)
        self.grid.append([Cell(tag="S") for _ in range(self.cols)])
        keep = []
        for p in self.placements:
            p.row -= 1
            if p.row + p.rows > 0:
                keep.append(p)
        self.placements = keep
        self.events.append(("scroll",))

    def _newline(self):
        self.wrap_pending = False
        if self.r == self.rows - 1:
            self._scroll_up()
        else:
            self.r += 1

    def _put(self, ch):
        if self.wrap_pending:
            self.wraps += 1
            self.events.append(("wrap", self.r))
            self._newline()
            self.c = 0
        cell = self.grid[self.r][self.c]
        if self.insert_mode:
            row = self.grid[self.r]
            row.insert(self.c, Cell())
            row.pop()
            cell = row[self.c]
        cell.glyph, cell.fg, cell.bg, cell.attrs, cell.tag = ch, self.fg, self.bg, self.attrs, "T"
        self._text_over_image(self.r, self.c)
        if self.c == self.cols - 1:
            self.wrap_pending = True
        else:
            self.c += 1

    def _text_over_image(self, r, c):
        # iterm2-protocol images are cell content on iterm2 / wezterm: text replaces them
        if self.identity in ("iterm2", "wezterm"):
            for p in self.placements:
                if p.proto == "iterm2" and p.row <= r < p.row + p.rows and p.col <= c < p.col + p.cols:
                    self.events.append(("overwrite-image", r, c))

    def _erase_cell(self, r, c):
        cell = self.grid[r][c]
        cell.glyph, cell.fg, cell.bg, cell.attrs, cell.tag = " ", None, self.bg, (), "E"

    # ------------------------------------------------------------------ feed
    def feed(self, s):
        self.nfeeds += 1
        i = 0
        n = len(s)
        while i < n:
            st = self.state
            ch = s[i]
            if st == GROUND:
                # fast path: run of printable characters
                if ch >= " " and ch != "\x7f":
                    self._put(ch)
                    i += 1
                    continue
                i += 1
                self._c0(ch)
            elif st in (OSC, APC, DCS):
                # scan to next ESC / BEL
                j = i
                while j < n and s[j] != "\x1b" and s[j] != "\x07":
                    j += 1
                if j > i:
                    self.buf.append(s[i:j])
                i = j
                if i < n:
                    if s[i] == "\x07":
                        if st == OSC:
                            self._end_string()
                        else:
                            self.buf.append("\x07")
                    else:
                        self.state = STR_ESC
                    i += 1
            elif st == STR_ESC:
                if ch == "\\":
                    i += 1
                    self._end_string()
                else:
                    # ESC not followed by '\' inside a string: aborts it, starts a new escape
                    self._abort_string()
                    self.state = ESC
            elif st == ESC:
                i += 1
                self._esc(ch)
            elif st == ESC_INT:
                i += 1
                self.state = GROUND  # ESC ( x  etc: final byte consumed
            elif st == CSI:
                i += 1
                self._csi_char(ch)

    def _c0(self, ch):
        if ch == "\x1b":
            self.state = ESC
        elif ch == "\n":
            self._newline()
            if self.onlcr:
                self.c = self.line_start
        elif ch == "\r":
            self.c = self.line_start
            self.wrap_pending = False
        elif ch == "\b":
            self.c = max(self.c - 1, 0)
            self.wrap_pending = False
        elif ch in "\x00\x07\x0e\x0f\x7f":
            pass
        elif ch == "\t":
            self.c = min((self.c // 8 + 1) * 8, self.cols - 1)
        else:
            self.error(f"unhandled C0 {ch!r}")

    def _esc(self, ch):
        if ch == "[":
            self.state = CSI
            self.buf = []
        elif ch == "]":
            self.state, self.str_kind, self.buf = OSC, "osc", []
        elif ch == "_":
            self.state, self.str_kind, self.buf = APC, "apc", []
        elif ch == "P":
            self.state, self.str_kind, self.buf = DCS, "dcs", []
        elif ch == "\\":
            self.state = GROUND  # lone ST
            self.events.append(("lone-st",))
        elif ch in "()*+":
            self.state = ESC_INT
        elif ch in "=>78":
            self.state = GROUND
        elif ch == "\x1b":
            self.state = ESC
        else:
            self.error(f"unhandled ESC {ch!r}")
            self.state = GROUND

    def _abort_string(self):
        self.events.append(("aborted-string", self.str_kind))
        if self.strict:
            self.error(f"{self.str_kind} string aborted by ESC")
        self.buf = []

    def _csi_char(self, ch):
        o = ord(ch)
        if 0x20 <= o <= 0x3F:
            self.buf.append(ch)
        elif 0x40 <= o <= 0x7E:
            params = "".join(self.buf)
            self.buf = []
            self.state = GROUND
            self._csi(params, ch)
        elif ch == "\x1b":
            self.events.append(("aborted-csi",))
            if self.strict:
                self.error("CSI aborted by ESC")
            self.buf = []
            self.state = ESC
        elif ch in "\n\r\b":
            self._c0(ch)  # C0 inside CSI is executed
            self.state = CSI
        else:
            self.error(f"bad char {ch!r} in CSI")
            self.state = GROUND

    @staticmethod
    def _nums(params, default=1):
        out = []
        for p in params.split(";"):
            if p == "":
                out.append(None)
            else:
                try:
                    out.append(int(p))
                except ValueError:
                    out.append(None)
        return out

    def _csi(self, params, final):
        private = params[:1] in ("?", ">", "<", "=")
        if private:
            prefix, params = params[0], params[1:]
        if final in "ABCD" and not private:
            n = self._nums(params)[0]
            n = 1 if not n else n      # a parameter of 0 means 1
            self.wrap_pending = False
            if final == "A":
                self.r = max(self.r - n, 0)
            elif final == "B":
                self.r = min(self.r + n, self.rows - 1)
            elif final == "C":
                self.c = min(self.c + n, self.cols - 1)
            else:
                self.c = max(self.c - n, 0)
        elif final in "Hf" and not private:
            ns = self._nums(params) + [None]
            r = (ns[0] or 1) - 1
            c = (ns[1] or 1) - 1
            self.r = min(max(r, 0), self.rows - 1)
            self.c = min(max(c, 0), self.cols - 1)
            self.wrap_pending = False
        elif final == "X" and not private:
            n = self._nums(params)[0] or 1
            for c in range(self.c, min(self.c + n, self.cols)):
                self._erase_cell(self.r, c)
                self._text_over_image(self.r, c)
            self.wrap_pending = False
        elif final == "@" and not private:
            n = self._nums(params)[0] or 1
            row = self.grid[self.r]
            for _ in range(n):
                row.insert(self.c, Cell(tag="E", bg=self.bg))
                row.pop()
        elif final == "K" and not private:
            n = self._nums(params)[0] or 0
            rng = (range(self.c, self.cols) if n == 0 else
                   range(0, self.c + 1) if n == 1 else range(self.cols))
            for c in rng:
                self._erase_cell(self.r, c)
        elif final == "J" and not private:
            n = self._nums(params)[0] or 0
            if n == 0:
                cells = [(self.r, c) for c in range(self.c, self.cols)] + \
                        [(r, c) for r in range(self.r + 1, self.rows) for c in range(self.cols)]
            elif n == 1:
                cells = [(r, c) for r in range(self.r) for c in range(self.cols)] + \
                        [(self.r, c) for c in range(self.c + 1)]
            else:
                cells = [(r, c) for r in range(self.rows) for c in range(self.cols)]
            for r, c in cells:
                self._erase_cell(r, c)
            self.events.append(("ED", n))
        elif final == "m" and not private:
            self._sgr(params)
        elif final in "hl" and private and prefix == "?":
            on = final == "h"
            for n in self._nums(params):
                self.modes[n] = on
                if n == 25:
                    self.visible = on
                    self.events.append(("cursor", on))
                elif n == 2026:
                    self.sync_depth += 1 if on else -1
                    self.events.append(("sync", on))
                elif n == 1049:
                    self.events.append(("altscreen", on))
        elif final in "hl" and not private:
            on = final == "h"
            for n in self._nums(params):
                if n == 4:
                    self.insert_mode = on
        elif final in "cqtnrsu" or private:
            self.events.append(("csi-ignored", params, final))  # queries / reports / misc
        else:
            self.error(f"unhandled CSI {params!r} {final!r}")

    def _sgr(self, params):
        if params == "":
            self.fg = self.bg = None
            self.attrs = ()
            return
        if ":" in params:
            # colon form 38:2::r:g:b
            for part in params.split(";"):
                f = part.split(":")
                if f[0] in ("38", "48") and len(f) >= 6 and f[1] == "2":
                    rgb = tuple(int(x) for x in f[-3:])
                    if f[0] == "38":
                        self.fg = rgb
                    else:
                        self.bg = rgb
                else:
                    self.attrs = tuple(sorted(set(self.attrs) | {part}))
            return
        ns = self._nums(params)
        i = 0
        while i < len(ns):
            n = ns[i] or 0
            if n == 0:
                self.fg = self.bg = None
                self.attrs = ()
            elif n in (38, 48) and i + 1 < len(ns) and ns[i + 1] == 2:
                if i + 4 >= len(ns) or any(v is None or not 0 <= v <= 255 for v in ns[i + 2:i + 5]):
                    self.error(f"bad direct colour SGR {params!r}")
                    return
                rgb = tuple(ns[i + 2:i + 5])
                if n == 38:
                    self.fg = rgb
                else:
                    self.bg = rgb
                i += 4
            elif n in (38, 48) and i + 1 < len(ns) and ns[i + 1] == 5:
                idx = ("idx", ns[i + 2] if i + 2 < len(ns) else None)
                if n == 38:
                    self.fg = idx
                else:
                    self.bg = idx
                i += 2
            elif n == 39:
                self.fg = None
            elif n == 49:
                self.bg = None
            elif 30 <= n <= 37 or 90 <= n <= 97:
                self.fg = ("ansi", n)
            elif 40 <= n <= 47 or 100 <= n <= 107:
                self.bg = ("ansi", n)
            else:
                self.attrs = tuple(sorted(set(self.attrs) | {n}, key=str))
            i += 1

    # ------------------------------------------------------------------ strings
    def _end_string(self):
        data = "".join(self.buf)
        self.buf = []
        kind = self.str_kind
        self.state = GROUND
        if kind == "osc":
            self._osc(data)
        elif kind == "apc":
            self._apc(data)
        else:
            self.events.append(("dcs", data[:20]))

    def _osc(self, data):
        if data.startswith("1337;File="):
            self._iterm2(data[len("1337;File="):])
        else:
            self.events.append(("osc", data[:30]))

    def _place_cursor_after_image(self, r0, c0, w, h):
        """iterm2/wezterm (and kitty without C=1): cursor on the last image row, just right of
        the image (clamped at the margin); scrolls by the rows that do not fit."""
        overflow = r0 + h - self.rows
        row = r0
        if overflow > 0:
            for _ in range(overflow):
                self._scroll_up()
            row = r0 - overflow
        self.r = min(row + h - 1, self.rows - 1)
        if c0 + w >= self.cols:
            self.c = self.cols - 1
            self.wrap_pending = True
        else:
            self.c = c0 + w
            self.wrap_pending = False
        return row

    def _tag_graphics(self, r0, c0, w, h):
        for r in range(max(r0, 0), min(r0 + h, self.rows)):
            for c in range(c0, min(c0 + w, self.cols)):
                self.grid[r][c].tag = "G"

    def _iterm2(self, data):
        head, sep, payload = data.partition(":")
        if not sep:
            self.error("iterm2: no ':' separating arguments and payload")
            return
        keys = {}
        for kv in head.split(";"):
            if not kv:
                continue
            k, eq, v = kv.partition("=")
            if not eq:
                self.error(f"iterm2: bad argument {kv!r}")
                return
            keys[k] = v
        rec = dict(keys=keys, payload_len=len(payload), row=self.r, col=self.c, ok=False)
        self.iterm_images.append(rec)
        if keys.get("inline") != "1":
            self.error("iterm2: inline=1 missing")
            return
        try:
            raw = base64.b64decode(payload, validate=True)
        except (binascii.Error, ValueError):
            self.error("iterm2: payload is not valid base64")
            return
        rec["raw"] = raw
        if "size" in keys:
            try:
                if int(keys["size"]) != len(raw):
                    self.error(f"iterm2: size={keys['size']} but payload decodes to {len(raw)} bytes")
            except ValueError:
                self.error("iterm2: bad size")
        try:
            w = int(keys.get("width", ""))
            h = int(keys.get("height", ""))
        except ValueError:
            self.error(f"iterm2: width/height not in cells: {keys.get('width')!r} {keys.get('height')!r}")
            return
        if w <= 0 or h <= 0:
            self.error("iterm2: non-positive cell size")
            return
        mode = size = None
        pix = None
        if self.decode_images:
            try:
                from PIL import Image

                with Image.open(io.BytesIO(raw)) as im:
                    im.load()
                    mode, size = im.mode, im.size
                    rec["format"] = im.format
                    rec["n_frames"] = getattr(im, "n_frames", 1)
                    pix = im.tobytes()
            except Exception as e:  # noqa
                self.error(f"iterm2: payload does not decode to an image ({type(e).__name__})")
                return
        rec.update(mode=mode, size=size, pix=pix, cols=w, rows=h, ok=True)
        if self.c + w > self.cols:
            self.error(f"iterm2: image {w} cols wide at col {self.c} exceeds the right margin")
        r0, c0 = self.r, self.c
        self.seq += 1
        if self.identity == "konsole":
            # konsole: placement on the kitty-like layer; honours doNotMoveCursor
            self._add_placement(Placement("iterm2", r0, c0, w, h, 0, mode, size, pix, self.seq))
            self._tag_graphics(r0, c0, w, h)
            if keys.get("doNotMoveCursor") != "1":
                self._place_cursor_after_image(r0, c0, w, h)
        else:
            row = self._place_cursor_after_image(r0, c0, w, h)
            # cell content: replaces whatever image content was in those cells
            self.placements = [p for p in self.placements
                               if not (p.proto == "iterm2" and p.row == row and p.col == c0
                                       and p.cols == w and p.rows == h)]
            self.placements.append(Placement("iterm2", row, c0, w, h, 0, mode, size, pix, self.seq))
            self._tag_graphics(row, c0, w, h)
        self.events.append(("image", "iterm2", r0, c0, w, h))

    def _add_placement(self, p):
        if self.identity == "konsole":
            # same cell and z-index: the new one replaces the old one
            self.placements = [q for q in self.placements
                               if not (q.row == p.row and q.col == p.col and q.z == p.z)]
        self.placements.append(p)

    # kitty ------------------------------------------------------------------------------
    def _apc(self, data):
        if not data.startswith("G"):
            self.events.append(("apc", data[:20]))
            return
        head, sep, payload = data[1:].partition(";")
        keys = {}
        for kv in head.split(","):
            if not kv:
                continue
            k, eq, v = kv.partition("=")
            if not eq or len(k) != 1:
                self.error(f"kitty: bad control data {kv!r}")
                return
            keys[k] = v
        self.kitty_chunks.append((dict(keys), payload))
        if self.pending_kitty is not None:
            extra = set(keys) - {"m", "q"}
            if extra:
                self.error(f"kitty: keys {sorted(extra)} in a continuation chunk")
                # real terminals treat it as a new command and drop the pending one
                self.pending_kitty = None
            else:
                self.pending_kitty["payload"].append(payload)
                if keys.get("m", "0") != "1":
                    pk, self.pending_kitty = self.pending_kitty, None
                    self._kitty_command(pk["keys"], "".join(pk["payload"]), len(pk["payload"]))
                return
        if keys.get("m") == "1":
            self.pending_kitty = dict(keys=keys, payload=[payload])
            return
        self._kitty_command(keys, payload, 1)

    def _kitty_command(self, keys, payload, nchunks):
        a = keys.get("a", "t")
        if a == "q":
            self.events.append(("kitty-query",))
            return
        if a == "d":
            self._kitty_delete(keys)
            return
        if a not in ("T", "t"):
            self.events.append(("kitty-other", a))
            return
        rec = dict(keys=keys, nchunks=nchunks, row=self.r, col=self.c, ok=False)
        self.kitty_images.append(rec)
        try:
            raw = base64.b64decode(payload, validate=True)
        except (binascii.Error, ValueError):
            self.error("kitty: payload is not valid base64")
            return
        if keys.get("o") == "z":
            try:
                raw = zlib.decompress(raw)
            except zlib.error:
                self.error("kitty: o=z payload does not inflate")
                return
        elif "o" in keys:
            self.error(f"kitty: unknown compression {keys['o']!r}")
            return
        try:
            f = int(keys.get("f", "32"))
            s = int(keys["s"]) if "s" in keys else None
            v = int(keys["v"]) if "v" in keys else None
            cw = int(keys["c"]) if "c" in keys else None
            rh = int(keys["r"]) if "r" in keys else None
            z = int(keys.get("z", "0"))
        except ValueError:
            self.error("kitty: non-integer key value")
            return
        if not -(2**31) <= z < 2**31:
            self.error(f"kitty: z-index {z} outside the signed 32-bit range")
        if f in (24, 32):
            if s is None or v is None:
                self.error("kitty: s/v missing for raw pixel data")
                return
            if len(raw) != s * v * f // 8:
                self.error(f"kitty: payload {len(raw)} bytes != s*v*bpp = {s}*{v}*{f // 8}")
                return
            mode, size = ("RGB" if f == 24 else "RGBA"), (s, v)
        elif f == 100:
            mode, size = "PNG", None
        else:
            self.error(f"kitty: unknown format f={f}")
            return
        rec.update(mode=mode, size=size, raw=raw, cols=cw, rows=rh, z=z, ok=True)
        if a == "t":
            return
        if cw is None or rh is None:
            self.error("kitty: c/r missing (footprint would depend on the cell size)")
            return
        if self.c + cw > self.cols:
            self.error(f"kitty: image {cw} cols wide at col {self.c} exceeds the right margin")
        r0, c0 = self.r, self.c
        self.seq += 1
        if keys.get("C") != "1":
            r0 = self._place_cursor_after_image(r0, c0, cw, rh)
        self._add_placement(Placement("kitty", r0, c0, cw, rh, z, mode, size, raw, self.seq))
        self._tag_graphics(r0, c0, cw, rh)
        self.events.append(("image", "kitty", r0, c0, cw, rh, z))

    def _kitty_delete(self, keys):
        d = keys.get("d", "a")
        dl = d.lower()
        before = len(self.placements)
        layer = [p for p in self.placements if p.proto == "kitty" or self.identity == "konsole"]
        others = [p for p in self.placements if not (p.proto == "kitty" or self.identity == "konsole")]
        if dl == "a":
            layer = []
        elif dl == "c":
            layer = [p for p in layer if not (p.row <= self.r < p.row + p.rows
                                              and p.col <= self.c < p.col + p.cols)]
        elif dl == "z":
            try:
                z = int(keys.get("z", "0"))
            except ValueError:
                self.error("kitty: bad z in delete")
                return
            layer = [p for p in layer if p.z != z]
        else:
            self.events.append(("kitty-delete-other", d))
        self.placements = sorted(others + layer, key=lambda p: p.seq)
        self.events.append(("kitty-delete", d, before - len(self.placements)))


def run(s, cols, rows, identity="other", at=(0, 0), line_start=None, **kw):
    """Execute *s* on a fresh pre-filled screen with the cursor at *at*; return the VTerm."""
    t = VTerm(cols, rows, identity, line_start=at[1] if line_start is None else line_start, **kw)
    t.r, t.c = at
    t.feed(s)
    return t
