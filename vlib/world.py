"""Loader, seams and world reset (DESIGN 2.1, 2.3, 2.4).

Everything the library reads from its environment is reachable through module globals; this
module substitutes them *after* import, so /repo needs no hooks.

  load()                      import term_image from $VERIF_REPO/src (default /repo/src)
  VTty                        virtual terminal device: termios attrs, input queue, responder
  VStdout                     virtual sys.stdout feeding a VTerm, with fault points
  install(tty, stdout=None)   plug a VTty (and optionally a VStdout) into the library
  reset_world()               put every memo / class-level setting back to import state
"""
from __future__ import annotations

import copy
import math
import os
import re
import sys
import types

REPO = os.environ.get("VERIF_REPO", "/repo")
VERIF = os.environ.get("VERIF_HOME", os.path.dirname(os.path.dirname(os.path.abspath(__file__))))

_loaded = None


class HarnessError(Exception):
    """The harness itself is broken / nondeterministic; never a verdict (exit 2)."""


def load():
    """Import the library from the working tree (once per process)."""
    global _loaded
    if _loaded:
        return _loaded
    src = os.path.join(REPO, "src")
    if not os.path.isdir(os.path.join(src, "term_image")):
        raise HarnessError(f"no term_image under {src}")
    sys.dont_write_bytecode = True
    sys.path.insert(0, src)
    for k in ("TERM_PROGRAM", "TERM_PROGRAM_VERSION"):
        os.environ.pop(k, None)
    os.environ["TERM"] = "xterm-256color"
    os.environ["COLORTERM"] = "truecolor"
    os.environ["SHELL"] = "/bin/sh"
    import warnings

    warnings.filterwarnings("ignore")
    import term_image  # noqa
    import term_image.utils as utils
    import term_image.image as image
    import term_image.image.common as common
    import term_image.image.block as block
    import term_image.image.kitty as kitty
    import term_image.image.iterm2 as iterm2
    import term_image.renderable as renderable
    import term_image.renderable._renderable as _renderable
    import term_image.renderable._types as _types
    import term_image.render as render
    import term_image.render._iterator as _iterator
    import term_image.padding as padding
    import term_image.geometry as geometry
    import term_image._ctlseqs as ctlseqs

    if not os.path.realpath(term_image.__file__).startswith(os.path.realpath(src)):
        raise HarnessError(f"term_image imported from {term_image.__file__}, not {src}")
    ns = types.SimpleNamespace(
        ti=term_image, utils=utils, image=image, common=common, block=block, kitty=kitty,
        iterm2=iterm2, renderable=renderable, _renderable=_renderable, _types=_types,
        render=render, _iterator=_iterator, padding=padding, geometry=geometry,
        ctlseqs=ctlseqs,
    )
    # pristine values of the things install() replaces
    ns.orig = dict(
        utils_os=utils.os, utils_select=utils.select, utils_termios=utils.termios,
        utils_fcntl=utils.fcntl, utils_monotonic=utils.monotonic, utils_tty_fd=utils._tty_fd,
        utils_gts=utils._get_terminal_size,
        rend_termios=_renderable.termios, rend_sleep=_renderable.sleep,
        rend_perf=_renderable.perf_counter_ns, common_time=common.time,
        stdout=sys.stdout, kitty_w=kitty._stdout_write, iterm2_w=iterm2._stdout_write,
    )
    _loaded = ns
    snapshot_library_state()
    return ns


def load_urwid():
    L = load()
    if not hasattr(L, "urwid_mod"):
        import term_image.widget._urwid as um
        import urwid

        L.urwid_mod = um
        L.urwid = urwid
        snapshot_library_state()
    return L


# --------------------------------------------------------------------------------------
# Generic library state (hidden nondeterminism): every module-level and class-level name of the
# library is snapshotted right after import.  restore_library_state() (called by reset_world) puts
# simple values back, deletes names that did not exist at import time and empties containers that
# were empty at import time - so state a (mutated) library hoists to module or class scope cannot
# leak from one execution into the next one.  Leaks *within* an execution stay observable; it is
# the checks' business to look for them with multi-step histories.
_SIMPLE = (type(None), bool, int, float, str, bytes, complex)
_lib_snap = {}      # id(namespace owner) -> (owner, frozenset(names), [(name, value)], [(name, container)])


def _is_simple(v):
    if isinstance(v, _SIMPLE):
        return True
    if isinstance(v, (tuple, frozenset)):
        return all(_is_simple(x) for x in v)
    return False


def _snap_namespace(owner, ns):
    simple, empties = [], []
    for k, v in list(ns.items()):
        if k.startswith("__") and k.endswith("__"):
            continue
        if _is_simple(v):
            simple.append((k, v))
        elif isinstance(v, (dict, list, set)) and not v:
            empties.append((k, v))
    _lib_snap[id(owner)] = (owner, frozenset(ns.keys()), simple, empties)


def snapshot_library_state():
    import inspect

    for name, mod in list(sys.modules.items()):
        if not (name == "term_image" or name.startswith("term_image.")) or mod is None:
            continue
        if id(mod) in _lib_snap:
            continue
        _snap_namespace(mod, vars(mod))
        for v in list(vars(mod).values()):
            if inspect.isclass(v) and getattr(v, "__module__", "").startswith("term_image") \
                    and id(v) not in _lib_snap:
                _snap_namespace(v, vars(v))


def adopt(owner, *names):
    """Harness seams: make the CURRENT value of these names of a library module / class the
    baseline that restore_library_state() keeps (call it after patching a simple-valued or new name)."""
    snap = _lib_snap.get(id(owner))
    if snap is None:
        return
    _, known, simple, empties = snap
    ns = vars(owner)
    known = set(known)
    for n in names:
        simple[:] = [(k, v) for k, v in simple if k != n]
        empties[:] = [(k, c) for k, c in empties if k != n]
        if n in ns:
            known.add(n)
            if _is_simple(ns[n]):
                simple.append((n, ns[n]))
        else:
            known.discard(n)
    _lib_snap[id(owner)] = (owner, frozenset(known), simple, empties)


def restore_library_state():
    for owner, names, simple, empties in _lib_snap.values():
        ns = vars(owner)
        if len(ns) != len(names):
            for k in [k for k in ns if k not in names]:
                try:
                    delattr(owner, k)
                except (AttributeError, TypeError):
                    pass
        for k, v in simple:
            cur = ns.get(k, _lib_snap)
            if cur is not v and cur != v or type(cur) is not type(v):
                try:
                    setattr(owner, k, v)
                except (AttributeError, TypeError):
                    pass
        for k, c in empties:
            cur = ns.get(k)
            if cur is not c:
                try:
                    setattr(owner, k, c)
                except (AttributeError, TypeError):
                    pass
            if c:
                c.clear()


# --------------------------------------------------------------------------------------
# termios constants (Linux); the proxy exposes the real module's constants
import termios as _real_termios  # noqa: E402

ECHO = _real_termios.ECHO
ICANON = _real_termios.ICANON
VMIN = _real_termios.VMIN
VTIME = _real_termios.VTIME
TTY_FD = 100
STDOUT_FD = 101


def default_attrs(canonical=True, echo=True, vmin=1, vtime=0):
    lflag = 0o105061 & ~(ECHO | ICANON)  # ISIG|ECHOE|ECHOK|ECHOCTL|ECHOKE|IEXTEN
    if canonical:
        lflag |= ICANON
    if echo:
        lflag |= ECHO
    cc = [b"\x00"] * 32
    cc[_real_termios.VINTR] = b"\x03"
    cc[_real_termios.VEOF] = b"\x04"
    cc[VMIN] = vmin
    cc[VTIME] = vtime
    return [0o2400, 0o5, 0o277, lflag, 15, 15, cc]


class Fault(BaseException):
    """Marker base so harness code can tell injected faults from real ones (not raised itself)."""


class Responder:
    """The terminal side: which queries it understands and what it answers (bytes).

    Written from the xterm ctlseqs / kitty protocol documents, not from _ctlseqs.py.
    """

    def __init__(self, *, da1=b"\x1b[?62;4c", xtversion=None, fg=None, bg=None,
                 text_area_px=None, cell_px=None, kitty=None, st=b"\x1b\\"):
        self.da1 = da1                # bytes or None
        self.xtversion = xtversion    # e.g. b"kitty(0.30.1)" -> DCS > | ... ST
        self.fg = fg                  # e.g. b"rgb:ffff/ffff/ffff"
        self.bg = bg
        self.text_area_px = text_area_px  # (height, width) as XTWINOPS reports
        self.cell_px = cell_px            # (height, width)
        self.kitty = kitty            # e.g. b"OK" / b"ENOTSUPPORTED:..." / None
        self.st = st

    _TOKENS = [
        ("fg", b"\x1b]10;?\x1b\\"),
        ("bg", b"\x1b]11;?\x1b\\"),
        ("da1", b"\x1b[c"),
        ("xtversion", b"\x1b[>q"),
        ("t14", b"\x1b[14t"),
        ("t16", b"\x1b[16t"),
    ]
    _KITTY_Q = re.compile(rb"\x1b_G([^;\x1b]*);([^\x1b]*)\x1b\\")

    def replies(self, data: bytes):
        """Parse *data* written by the application, return the list of atomic replies."""
        out = []
        i = 0
        n = len(data)
        while i < n:
            for name, tok in self._TOKENS:
                if data.startswith(tok, i):
                    r = self._reply(name)
                    if r is not None:
                        out.append((name, r))
                    i += len(tok)
                    break
            else:
                m = self._KITTY_Q.match(data, i)
                if m:
                    keys = dict(kv.split(b"=", 1) for kv in m.group(1).split(b",") if b"=" in kv)
                    if keys.get(b"a") == b"q" and self.kitty is not None:
                        out.append(("kitty", b"\x1b_Gi=" + keys.get(b"i", b"0") + b";" + self.kitty + b"\x1b\\"))
                    i = m.end()
                else:
                    i += 1
        return out

    def _reply(self, name):
        if name == "da1":
            return self.da1
        if name == "xtversion":
            return None if self.xtversion is None else b"\x1bP>|" + self.xtversion + b"\x1b\\"
        if name == "fg":
            return None if self.fg is None else b"\x1b]10;" + self.fg + self.st
        if name == "bg":
            return None if self.bg is None else b"\x1b]11;" + self.bg + self.st
        if name == "t14":
            return None if self.text_area_px is None else b"\x1b[4;%d;%dt" % self.text_area_px
        if name == "t16":
            return None if self.cell_px is None else b"\x1b[6;%d;%dt" % self.cell_px
        return None


class VTty:
    """In-process model of the tty the library talks to.  Every entry is a numbered
    *environment call*; `fault` = (k, mode, exc) raises at the k-th call (mode 'instead' /
    'after').  Reply timing is decided through `chooser` (explore.Chooser) or defaults.
    """

    def __init__(self, cols=80, rows=24, xpx=0, ypx=0, responder=None, attrs=None,
                 chooser=None, allow_silence=True, eager=False):
        self.cols, self.rows, self.xpx, self.ypx = cols, rows, xpx, ypx
        # eager: a terminal may answer at once - at tcdrain() (the query has certainly reached it) the
        # first j pending replies may already be queued before the application's next call; one more
        # point of the reply-schedule tree (choice 0 = nothing yet).  Off by default.
        self.eager = eager
        self.responder = responder or Responder()
        self.attrs = attrs if attrs is not None else default_attrs()
        self.inq = bytearray()
        self.pending = []            # [(name, bytes)] replies not yet written by the terminal
        self.out = bytearray()       # everything the application wrote to the tty fd
        self.echoed = bytearray()    # input that arrived while ECHO was on
        self.clock = 1000.0
        self.ncalls = 0
        self.calls = []              # log of (n, kind, detail)
        self.fault = None            # (k, mode, exc_factory)
        self.fault_fired = False
        self.chooser = chooser
        self.allow_silence = allow_silence
        self.small_delay = 0.001
        self.ioctl_fails = False
        self.sink = None             # optional VTerm that receives non-query output
        self.log_calls = True
        self.max_calls = 100000

    # ---- fault plumbing
    def _enter(self, kind, detail=None):
        self.ncalls += 1
        if self.ncalls > self.max_calls:
            raise HarnessError("VTty: call budget exceeded (livelock?)")
        if self.log_calls:
            self.calls.append((self.ncalls, kind, detail))
        f = self.fault
        if f and not self.fault_fired and f[0] == self.ncalls and f[1] == "instead":
            if not (len(f) > 3 and f[3] and f[3](kind, detail)):
                self.fault_fired = True
                raise f[2]()
        return self.ncalls

    def _leave(self, n):
        f = self.fault
        if f and not self.fault_fired and f[0] == n and f[1] == "after":
            self.fault_fired = True
            raise f[2]()

    # ---- terminal side
    def _deliver(self, k, delay):
        self.clock += delay
        for _ in range(k):
            name, data = self.pending.pop(0)
            self.inq.extend(data)
            if self.attrs[3] & ECHO:
                self.echoed.extend(data)

    def _expire(self, timeout):
        """A wait that runs into its timeout: a real select never returns early, so the clock always
        moves (by at least one ulp when the remaining timeout is below the float resolution of the
        clock - otherwise `while monotonic() - start < timeout` would spin forever in the model only)."""
        t = max(timeout, 0.0)
        if t > 0.0:
            self.clock = max(self.clock + t, math.nextafter(self.clock, math.inf))

    def _wait(self, timeout, force=False):
        """Block for input up to *timeout* (None = forever).  Returns True if readable.
        *force*: wait for the next delivery even though some input is already queued (a read that
        needs more bytes than are there: VMIN > len(inq), canonical mode without a complete line)."""
        if self.inq and not force:
            return True
        if not self.pending:
            if timeout is None:
                raise HarnessError("VTty: blocking forever with nothing pending (deadlock)")
            self._expire(timeout)
            return False
        npend = len(self.pending)
        if self.chooser is None:
            self._deliver(npend, 0.0)
            return True
        # menu: (how many replies, delay kind); choice 0 = everything at once, now
        menu = [(npend, 0)]
        for k in range(1, npend + 1):
            for d in (0, 1, 2):
                if (k, d) != (npend, 0):
                    menu.append((k, d))
        if self.allow_silence and timeout is not None:
            menu.append((0, 3))
        k, d = menu[self.chooser.choose(len(menu), "reply")]
        if k == 0:
            self._expire(timeout)
            return False
        if d == 0:
            delay = 0.0
        elif d == 1:
            delay = self.small_delay
        else:
            delay = (timeout * 0.98) if timeout is not None else 5.0
        if timeout is not None and delay >= timeout:
            self._expire(timeout)
            return False
        self._deliver(k, delay)
        return True

    # ---- calls made by the library (through the proxies below)
    @staticmethod
    def _copy_attrs(a):
        """deepcopy of a termios attribute list (7 items, the last one the cc list of bytes / ints) -
        40x faster than copy.deepcopy, which dominated query-heavy explorations."""
        if type(a) is list and len(a) == 7 and type(a[6]) is list and \
                all(type(x) is int for x in a[:6]) and all(type(x) in (bytes, int) for x in a[6]):
            return a[:6] + [a[6][:]]
        return copy.deepcopy(a)

    def tcgetattr(self, fd):
        n = self._enter("tcgetattr")
        r = self._copy_attrs(self.attrs)
        self._leave(n)
        return r

    def tcsetattr(self, fd, when, attrs):
        n = self._enter("tcsetattr", (when, self._copy_attrs(attrs)))
        if not (isinstance(attrs, list) and len(attrs) == 7):
            raise _real_termios.error("bad attrs")
        self.attrs = self._copy_attrs(attrs)
        if when == _real_termios.TCSAFLUSH:
            del self.inq[:]
        self._leave(n)

    def tcdrain(self, fd):
        n = self._enter("tcdrain")
        if self.eager and self.chooser is not None and self.pending:
            j = self.chooser.choose(len(self.pending) + 1, "eager")
            if j:
                self._deliver(j, 0.0)
        self._leave(n)

    def write(self, fd, data):
        n = self._enter("write", bytes(data))
        self.out.extend(data)
        reps = self.responder.replies(bytes(data))
        self.pending.extend(reps)
        if self.sink is not None:
            self.sink.feed(bytes(data).decode("utf-8", "replace"))
        self._leave(n)
        return len(data)

    def select(self, r, w, x, timeout=None):
        n = self._enter("select", timeout)
        ok = self._wait(timeout)
        self._leave(n)
        return ([TTY_FD] if ok else [], [], [])

    def read(self, fd, nbytes):
        n = self._enter("read", nbytes)
        lflag = self.attrs[3]
        cc = self.attrs[6]
        if lflag & ICANON:
            # canonical: only complete lines
            while b"\n" not in self.inq:
                if not self.pending:
                    raise HarnessError("VTty: canonical read would block forever")
                self._wait(None, True)
            i = self.inq.index(b"\n") + 1
            k = min(i, nbytes)
        else:
            vmin = cc[VMIN] if isinstance(cc[VMIN], int) else cc[VMIN][0]
            vtime = cc[VTIME] if isinstance(cc[VTIME], int) else cc[VTIME][0]
            need = min(vmin, nbytes)
            if vmin > 0:
                while len(self.inq) < need:
                    if not self.pending:
                        raise HarnessError("VTty: read(VMIN>0) would block forever")
                    self._wait(None, True)
            elif not self.inq and vtime > 0:
                self._wait(vtime / 10.0)
            k = min(len(self.inq), nbytes)
        data = bytes(self.inq[:k])
        del self.inq[:k]
        self._leave(n)
        return data

    def ioctl(self, fd, op, buf):
        n = self._enter("ioctl")
        if self.ioctl_fails:
            raise OSError(25, "Inappropriate ioctl for device")
        buf[0], buf[1], buf[2], buf[3] = self.rows, self.cols, self.xpx, self.ypx
        self._leave(n)
        return 0

    def monotonic(self):
        n = self._enter("monotonic")
        self._leave(n)
        return self.clock

    # What standard output / the `shutil` fallback report when standard output is NOT the active terminal:
    #   None (default) - stdout is the terminal: every fd and the fallback report the terminal's size;
    #   (cols, rows)   - os.get_terminal_size(fd) raises OSError for every fd but the tty's own, and
    #                    shutil.get_terminal_size() (COLUMNS/LINES or its fallback) reports this size.
    stdout_size = None

    def get_terminal_size(self, fd=None):
        if self.stdout_size is not None and fd != TTY_FD:
            raise OSError(25, "Inappropriate ioctl for device")
        return os.terminal_size((self.cols, self.rows))

    def shutil_terminal_size(self):
        if self.stdout_size is not None:
            return os.terminal_size(tuple(self.stdout_size))
        return os.terminal_size((self.cols, self.rows))


class _OsProxy:
    """Stands in for the `os` module inside term_image.utils."""

    def __init__(self, tty):
        self._tty = tty
        self.environ = os.environ
        self.terminal_size = os.terminal_size

    def get_terminal_size(self, fd=None):
        return self._tty.get_terminal_size(fd)

    def read(self, fd, n):
        return self._tty.read(fd, n)

    def write(self, fd, data):
        return self._tty.write(fd, data)

    def __getattr__(self, name):
        return getattr(os, name)


class _TermiosProxy:
    def __init__(self, tty):
        self._tty = tty
        self.error = _real_termios.error

    def tcgetattr(self, fd):
        return self._tty.tcgetattr(fd)

    def tcsetattr(self, fd, when, attrs):
        return self._tty.tcsetattr(fd, when, attrs)

    def tcdrain(self, fd):
        return self._tty.tcdrain(fd)

    def __getattr__(self, name):
        return getattr(_real_termios, name)


class _FcntlProxy:
    def __init__(self, tty):
        self._tty = tty

    def ioctl(self, fd, op, buf, *a):
        return self._tty.ioctl(fd, op, buf)


class FaultPlan:
    """Fault schedule for VStdout-level points (write / flush / sleep / render)."""

    def __init__(self, k=None, mode="instead", exc=KeyboardInterrupt, prefix=None, buffered=False):
        self.k, self.mode, self.exc, self.prefix, self.buffered = k, mode, exc, prefix, buffered
        self.fired = False


class VStdout:
    """Virtual text stream.  Characters go to `term` (a VTerm).  Every write/flush is a numbered
    fault point shared with `points` (the same counter also counts sleeps and renders when the
    harness routes them through `point()`)."""

    encoding = "utf-8"
    errors = "strict"

    def __init__(self, term=None, isatty=True, plan=None, record=True, buffering="none"):
        """*buffering*: "none" - write() delivers at once (default, the worst case for cut sequences);
        "full" - like a buffered TextIOWrapper: write() only appends to the pending buffer (still a
        numbered fault point: "instead" = nothing appended, "after" = appended), flush() is the hand-over
        to the terminal: a FaultPlan in mode "partial" at a flush point delivers `prefix` characters of the
        pending text and raises, the rest being lost (buffered=False) or kept for the next hand-over
        (buffered=True); "instead" at a flush keeps everything pending; "line" - like "full", but a
        write() containing a newline hands over everything pending (the same fault point as the write:
        "partial" then cuts the hand-over).  In the buffered disciplines the log payload of a flush is the
        number of pending characters."""
        if buffering not in ("none", "full", "line"):
            raise ValueError(buffering)
        self.buffering = buffering
        self.term = term
        self._isatty = isatty
        self.plan = plan
        self.npoints = 0
        self.log = []          # (n, kind, payload)
        self.record = record
        self.data = []         # everything delivered, in order
        self._buf = []         # undelivered remainder (buffered discipline)
        self.closed = False
        self.in_cleanup = None  # optional predicate(kind, payload) -> bool: point is out of scope

    # harness-visible
    def point(self, kind, payload=None):
        """A fault point that is not a write (sleep, render, ...)."""
        self.npoints += 1
        n = self.npoints
        if self.record:
            self.log.append((n, kind, payload if kind != "write" else len(payload)))
        p = self.plan
        if p and not p.fired and p.k == n and p.mode == "instead":
            if self.in_cleanup is not None and self.in_cleanup(kind, payload):
                p.skipped_cleanup = True
                return n
            p.fired = True
            p.fired_kind = kind
            raise p.exc()
        return n

    def after(self, n, kind=None):
        p = self.plan
        if p and not p.fired and p.k == n and p.mode == "after":
            p.fired = True
            p.fired_kind = kind
            raise p.exc()

    def _deliver(self, s):
        if self._buf:
            # a buffered stream keeps the order: what an interrupted write left in the buffer goes out
            # before anything written later
            b, self._buf = self._buf, []
            for x in b:
                self._deliver(x)
        if s:
            self.data.append(s)
            if self.term is not None:
                self.term.feed(s)

    def pending(self):
        """Text written but not yet handed over to the terminal."""
        return "".join(self._buf)

    def _handover(self, cut=None, keep_rest=True):
        """Deliver the pending text (or its first *cut* characters; the rest is kept or lost)."""
        b, self._buf = self._buf, []
        if cut is None:
            for x in b:
                self._deliver(x)
            return
        text = "".join(b)
        cut = min(max(cut, 0), len(text))
        self._deliver(text[:cut])
        if keep_rest and text[cut:]:
            self._buf = [text[cut:]]

    def _write_buffered(self, s, n):
        line = self.buffering == "line" and "\n" in s
        p = self.plan
        if p and not p.fired and p.k == n and p.mode in ("instead", "partial"):
            if self.in_cleanup is not None and p.mode == "instead" and self.in_cleanup("write", s):
                p.skipped_cleanup = True
            else:
                p.fired = True
                p.fired_kind = "write"
                if p.mode == "partial":
                    if line:
                        self._buf.append(s)
                        self._handover(p.prefix or 0, keep_rest=bool(p.buffered))
                    else:
                        self._buf.append(s if p.buffered else s[:min(p.prefix or 0, len(s))])
                raise p.exc()
        self._buf.append(s)
        if line:
            self._handover()
        self.after(n, "write")
        return len(s)

    def write(self, s):
        if not isinstance(s, str):
            raise TypeError("write() argument must be str")
        self.npoints += 1
        n = self.npoints
        if self.record:
            self.log.append((n, "write", len(s)))
        if self.buffering != "none":
            return self._write_buffered(s, n)
        p = self.plan
        if p and not p.fired and p.k == n and p.mode in ("instead", "partial"):
            if self.in_cleanup is not None and p.mode == "instead" and self.in_cleanup("write", s):
                p.skipped_cleanup = True
            else:
                p.fired = True
                p.fired_kind = "write"
                cut = 0 if p.mode == "instead" else min(p.prefix or 0, len(s))
                self._deliver(s[:cut])
                if p.buffered:
                    self._buf.append(s[cut:])
                raise p.exc()
        self._deliver(s)
        self.after(n, "write")
        return len(s)

    def flush(self):
        if self.buffering != "none":
            n = self.point("flush", sum(map(len, self._buf)))      # "instead": everything stays pending
            p = self.plan
            if p and not p.fired and p.k == n and p.mode == "partial":
                p.fired = True
                p.fired_kind = "flush"
                self._handover(p.prefix or 0, keep_rest=bool(p.buffered))
                raise p.exc()
            self._handover()
            self.after(n, "flush")
            return
        n = self.point("flush")
        if self._buf:
            b, self._buf = self._buf, []
            for s in b:
                self._deliver(s)
        self.after(n, "flush")

    def isatty(self):
        return self._isatty

    def fileno(self):
        return STDOUT_FD

    def writable(self):
        return True

    def getvalue(self):
        return "".join(self.data)


class VClock:
    """Virtual clock for common.time / _renderable.sleep / perf_counter_ns."""

    def __init__(self, stdout=None):
        self.t = 5000.0
        self.stdout = stdout
        self.sleeps = []

    # term_image.image.common uses `time.time()` and `time.sleep()`
    def time(self):
        return self.t

    def sleep(self, d):
        n = None
        if self.stdout is not None:
            n = self.stdout.point("sleep", d)
        self.sleeps.append(d)
        self.t += max(d, 0.0)
        if n is not None:
            self.stdout.after(n, "sleep")

    def perf_counter_ns(self):
        return int(self.t * 10**9)


class World:
    tty = None
    stdout = None
    clock = None


W = World()


def install(tty, stdout=None, clock=None):
    """Plug the virtual devices into the library's module globals."""
    L = load()
    u = L.utils
    W.tty, W.stdout, W.clock = tty, stdout, clock
    u._tty_fd = TTY_FD
    adopt(u, "_tty_fd")
    u.os = _OsProxy(tty)
    u.termios = _TermiosProxy(tty)
    u.fcntl = _FcntlProxy(tty)
    u.select = tty.select
    u.monotonic = tty.monotonic
    u._get_terminal_size = lambda *a, **k: tty.shutil_terminal_size()
    L._renderable.termios = _TermiosProxy(tty)
    if stdout is not None:
        sys.stdout = stdout
        L.kitty._stdout_write = stdout.write
        L.iterm2._stdout_write = stdout.write
    if clock is not None:
        L._renderable.sleep = clock.sleep
        L._renderable.perf_counter_ns = clock.perf_counter_ns
        L.common.time = clock


def uninstall():
    L = load()
    o = L.orig
    u = L.utils
    u._tty_fd = o["utils_tty_fd"]
    adopt(u, "_tty_fd")
    u.os, u.select, u.termios, u.fcntl = o["utils_os"], o["utils_select"], o["utils_termios"], o["utils_fcntl"]
    u.monotonic, u._get_terminal_size = o["utils_monotonic"], o["utils_gts"]
    L._renderable.termios = o["rend_termios"]
    L._renderable.sleep, L._renderable.perf_counter_ns = o["rend_sleep"], o["rend_perf"]
    L.common.time = o["common_time"]
    sys.stdout = o["stdout"]
    L.kitty._stdout_write, L.iterm2._stdout_write = o["kitty_w"], o["iterm2_w"]
    W.tty = W.stdout = W.clock = None


def reset_world():
    """Every memo / class-level setting back to its import-time value."""
    L = load()
    restore_library_state()
    u = L.utils
    ti = L.ti
    u._query_timeout = 0.1
    u._queries_enabled = True
    u._swap_win_size = False
    import threading

    if type(u._tty_lock) is not type(threading.RLock()):
        u._tty_lock = threading.RLock()
    if not isinstance(u._cell_size_cache, list):
        u._cell_size_cache = [0] * 4
        u._cell_size_lock = threading.RLock()
    u._cell_size_cache[:] = [0] * 4
    u.get_fg_bg_colors._invalidate_cache()
    u.get_terminal_name_version._invalidate_cache()
    isk = L.common.TextImage.__dict__.get("_is_on_kitty")
    inv = getattr(getattr(isk, "__func__", isk), "_invalidate_cache", None)   # absent once it is no longer memoised
    if inv is not None:
        inv()
    ti._cell_ratio = 0.5
    ti.AutoCellRatio.is_supported = None
    B, K, I = L.image.BlockImage, L.image.KittyImage, L.image.ITerm2Image
    # Class-level settings (_forced_support, _supported, _jpeg_quality, _read_from_file, _render_method) are
    # put back by restore_library_state() above: names absent at import are deleted, the others get their
    # import-time value - never a value hard-coded here, which would mask a changed class body.
    for cls in (K, I):
        cls._TERM = ""
        cls._TERM_VERSION = ""
    K._KITTY_VERSION = ()
    M = type(I)
    setattr(M, "_native_anim_max_bytes", 2 * 2**20)
    L._types.RenderArgs._interned  # touch (not reset: interning is content-addressed)
    if hasattr(L, "urwid_mod"):
        um = L.urwid_mod
        um.UrwidImage._ti_error_placeholder = None
        um.UrwidImage._ti_disguise_state = 0
        um.UrwidImage._ti_free_z_indexes = set()
        um.UrwidImage._ti_next_z_index = 1
        um.UrwidImageCanvas._ti_disguise_state = 0


# --------------------------------------------------------------------------------------
# Terminal identity presets

IDENTITIES = {
    "other": dict(xtversion=None),
    "xterm": dict(xtversion=b"XTerm(370)"),
    "kitty": dict(xtversion=b"kitty(0.30.1)", kitty=b"OK"),
    "kitty-old": dict(xtversion=b"kitty(0.19.9)", kitty=b"OK"),
    "kitty-0.25": dict(xtversion=b"kitty(0.25.0)", kitty=b"OK"),
    "kitty-0.25.1": dict(xtversion=b"kitty(0.25.1)", kitty=b"OK"),
    "kitty-0.25.2": dict(xtversion=b"kitty(0.25.2)", kitty=b"OK"),
    "kitty-0.26": dict(xtversion=b"kitty(0.26.0)", kitty=b"OK"),
    "konsole": dict(xtversion=b"Konsole 22.12.3", kitty=b"OK"),
    "konsole-old": dict(xtversion=b"Konsole 22.03.9", kitty=b"OK"),
    "wezterm": dict(xtversion=b"WezTerm 20230712-072601-f4abf8fd"),
    "iterm2": dict(xtversion=b"iTerm2 3.4.19"),
}


def make_tty(identity="other", cols=80, rows=24, cell=None, fg=b"rgb:ffff/ffff/ffff",
             bg=b"rgb:0000/0000/0000", **kw):
    """A VTty answering like *identity*; *cell* = (w, h) pixel size or None (undetermined)."""
    cfg = dict(IDENTITIES[identity])
    cfg.setdefault("fg", fg)
    cfg.setdefault("bg", bg)
    if fg is None:
        cfg["fg"] = None
    if bg is None:
        cfg["bg"] = None
    resp = Responder(**cfg)
    xpx = ypx = 0
    if cell:
        xpx, ypx = cols * cell[0], rows * cell[1]
    tty = VTty(cols, rows, xpx, ypx, responder=resp, **kw)
    tty.log_calls = False
    return tty


def setup(identity="other", cols=80, rows=24, cell=None, stdout=None, clock=None, **kw):
    """reset_world + fresh VTty of the given identity installed.  Returns the VTty."""
    reset_world()
    tty = make_tty(identity, cols, rows, cell, **kw)
    install(tty, stdout, clock)
    return tty
